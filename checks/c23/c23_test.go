//go:build verif

// C23 — formatting a complete file keeps the import set: no import is added or removed except
// exact duplicates, name and path stay together, every contiguous import group ends up sorted
// by path.
package c23

import (
	"fmt"
	gotoken "go/token"
	"os"
	"runtime/debug"
	"sort"
	"strconv"
	"strings"
	"testing"

	"github.com/goplus/xgo/ast"
	"github.com/goplus/xgo/format"
	"github.com/goplus/xgo/parser"
	"github.com/goplus/xgo/token"
	"pgregory.net/rapid"

	"verif/internal/vk"
)

func TestMain(m *testing.M) {
	vk.Main(m, "C23", "exploration",
		"complete files with an optional package clause, 0-4 import declarations (ungrouped, grouped, empty group), 0-8 specs per group with names {none, alias, _, .}, paths from a pool with shared prefixes, case variants, raw-quoted and escaped spellings of the same path, exact duplicates and same-path-different-name pairs, runs separated by blank lines / comment lines / doc comments / multi-line block comments / ';', trailing line and block comments, followed by code; normal and class-file mode. Oracle: parse before and after format.Source; (name, unquoted path) sets equal and no pair more frequent than in the input; number of import declarations unchanged; in the output every maximal run of specs on consecutive lines of one declaration has non-decreasing paths. Non-trivial = some input run of >= 3 specs is not already sorted, or a run holds an exact duplicate; distinct = hash of the (declaration, run, name, path, has-comment) structure of the input")
}

type Case struct {
	Src   vk.Bytes `json:"src"`
	Class bool     `json:"class"` // parse as a class file (ParseGoPlusClass)
}

// imp is one import as the property sees it.
type imp struct {
	Name, Path string
}

func (i imp) String() string {
	if i.Name == "" {
		return strconv.Quote(i.Path)
	}
	return i.Name + " " + strconv.Quote(i.Path)
}

type spec struct {
	imp
	First, Last int  // first and last line of the spec proper (name/path)
	Comment     bool // has a doc or line comment attached
}

type view struct {
	decls [][][]spec // declaration → run → specs
	all   map[imp]int
}

// observe parses src and returns the import declarations split into runs of specs on
// consecutive lines.
func observe(src []byte, class bool) (*view, error) {
	fset := gotoken.NewFileSet()
	mode := parser.ParseComments
	if class {
		mode |= parser.ParseGoPlusClass
	}
	f, err := parser.ParseFile(fset, "", src, mode)
	if err != nil {
		return nil, err
	}
	v := &view{all: map[imp]int{}}
	line := func(p gotoken.Pos) int { return fset.PositionFor(p, false).Line }
	for _, d := range f.Decls {
		g, ok := d.(*ast.GenDecl)
		if !ok || g.Tok != token.IMPORT {
			continue
		}
		var runs [][]spec
		for _, s := range g.Specs {
			is, ok := s.(*ast.ImportSpec)
			if !ok {
				return nil, fmt.Errorf("import declaration holds a %T", s)
			}
			p, err := strconv.Unquote(is.Path.Value)
			if err != nil {
				return nil, fmt.Errorf("import path %s: %v", is.Path.Value, err)
			}
			sp := spec{imp: imp{Path: p}, First: line(is.Path.Pos()), Last: line(is.Path.End()), Comment: is.Doc != nil || is.Comment != nil}
			if is.Name != nil {
				sp.Name = is.Name.Name
				sp.First = line(is.Name.Pos())
			}
			v.all[sp.imp]++
			if n := len(runs); n > 0 {
				prev := runs[n-1][len(runs[n-1])-1]
				if sp.First <= prev.Last+1 {
					runs[n-1] = append(runs[n-1], sp)
					continue
				}
			}
			runs = append(runs, []spec{sp})
		}
		v.decls = append(v.decls, runs)
	}
	return v, nil
}

type info struct {
	rejected string
	nontriv  bool
	key      string
	nspecs   int
	dup      bool
	unsorted bool
	// sameLineDup: two specs share a source line (joined by ';') in a run where one of them has
	// an exact duplicate, i.e. deduplication may remove a spec that does not own its line
	sameLineDup bool
}

func describe(v *view) (in info) {
	var b strings.Builder
	for _, d := range v.decls {
		b.WriteString("D")
		for _, r := range d {
			b.WriteString("R")
			seen := map[imp]bool{}
			sorted := true
			cnt := map[imp]int{}
			for _, s := range r {
				cnt[s.imp]++
			}
			for i, s := range r {
				if i > 0 && r[i-1].Last == s.First && (cnt[s.imp] > 1 || cnt[r[i-1].imp] > 1) {
					in.sameLineDup = true
				}
				in.nspecs++
				fmt.Fprintf(&b, "%s|%v;", s.imp, s.Comment)
				if seen[s.imp] {
					in.dup = true
				}
				seen[s.imp] = true
				if i > 0 && r[i-1].Path > s.Path {
					sorted = false
				}
			}
			if !sorted && len(r) >= 3 {
				in.unsorted = true
			}
		}
	}
	in.key = b.String()
	in.nontriv = in.dup || in.unsorted
	return
}

func keys(m map[imp]int) []string {
	var out []string
	for k, n := range m {
		out = append(out, fmt.Sprintf("%s×%d", k, n))
	}
	sort.Strings(out)
	return out
}

func compare(c Case) (v *vk.Verdict, in info) {
	defer func() {
		if p := recover(); p != nil {
			cls := "panic"
			if in.sameLineDup {
				cls = "panic-same-line-dup"
			}
			v = vk.Bad(cls, "%v\n%s", p, debug.Stack())
		}
	}()
	before, err := observe(c.Src, c.Class)
	if err != nil {
		if os.Getenv("C23_DEBUG") != "" {
			fmt.Printf("REJECT %v\n%s\n----\n", err, c.Src)
		}
		return nil, info{rejected: "input-does-not-parse"}
	}
	in = describe(before)
	v = compare1(c, before, in)
	return
}

func compare1(c Case, before *view, in info) *vk.Verdict {
	out, err := format.Source(c.Src, c.Class)
	if err != nil {
		// Source parses exactly as observe does, so this cannot be a syntax error of the input
		return vk.Bad("format-error", "format.Source fails on a file that parses: %v", err)
	}
	after, err := observe(out, c.Class)
	if err != nil {
		return vk.Bad("output-does-not-parse", "formatted file does not parse (%v):\n%s", err, out)
	}
	// 1. nothing invented, nothing lost, only duplicates may go
	for k, n := range after.all {
		m := before.all[k]
		if m == 0 {
			return vk.Bad("import-invented", "output imports %s, input does not; input %v, output %v\n%s", k, keys(before.all), keys(after.all), out)
		}
		if n > m {
			return vk.Bad("import-multiplied", "output imports %s %d times, input %d times\n%s", k, n, m, out)
		}
	}
	for k := range before.all {
		if after.all[k] == 0 {
			return vk.Bad("import-lost", "input imports %s, output does not; input %v, output %v\n%s", k, keys(before.all), keys(after.all), out)
		}
	}
	// 2. declarations are neither merged nor split
	if len(before.decls) != len(after.decls) {
		return vk.Bad("decl-count", "input has %d import declarations, output %d\n%s", len(before.decls), len(after.decls), out)
	}
	// 3. every contiguous group of the output is sorted by path
	for di, d := range after.decls {
		for _, r := range d {
			for i := 1; i < len(r); i++ {
				if r[i-1].Path > r[i].Path {
					cls := "group-unsorted"
					if in.sameLineDup {
						cls = "group-unsorted-same-line-dup"
					}
					return vk.Bad(cls, "declaration %d: %s (line %d) precedes %s (line %d) in one contiguous group\n%s",
						di, r[i-1].imp, r[i-1].First, r[i].imp, r[i].First, out)
				}
			}
		}
	}
	return nil
}

var oracle = vk.Register("fmt", func(c Case) *vk.Verdict { v, _ := compare(c); return v })

type failer interface {
	Fatalf(string, ...any)
	Helper()
}

func run(t failer, c Case, class string) {
	v, in := compare(c)
	if in.rejected != "" {
		vk.R.Rejected(in.rejected)
		vk.R.Case(false, "")
		return
	}
	vk.R.Case(in.nontriv, fmt.Sprint(c.Class, in.key))
	vk.R.Class(class)
	switch {
	case in.nspecs == 0:
		vk.R.Class("specs=0")
	case in.nspecs <= 3:
		vk.R.Class("specs=1-3")
	case in.nspecs <= 8:
		vk.R.Class("specs=4-8")
	default:
		vk.R.Class("specs=9+")
	}
	if in.dup {
		vk.R.Class("has=exact-duplicate-in-run")
	}
	if in.unsorted {
		vk.R.Class("has=unsorted-run>=3")
	}
	if in.sameLineDup {
		vk.R.Class("has=same-line-duplicate")
	}
	if c.Class {
		vk.R.Class("mode=class")
	}
	if in.nontriv {
		vk.R.Sample(string(c.Src))
	}
	vk.R.Check(t, "fmt", c, v)
}

// ---- generator --------------------------------------------------------------------------------

// paths: shared prefixes, case variants, separators that sort around '/', non-ASCII.
var pathPool = []string{"a", "a/b", "a/b/c", "a-b", "a.b", "a_b", "ab", "A", "B/a", "b", "b/a", "fmt", "os", "strings", "C", "unsafe",
	"github.com/x/y", "github.com/x/y/v2", "github.com/x/z", "golang.org/x/tools", "é/z", "z", "a/b", "fmt", "a"}

var namePool = []string{"", "", "", "", "_", ".", "x", "y", "fmt", "a", "é", "X"}

var lineComments = []string{"// c", "//", "// a b", "//x\t"}
var blockComments = []string{"/* c */", "/**/", "/* a b */"}
var multiLineBlock = []string{"/* a\nb */", "/*\n*/"}

// declarations come first, statements (the implicit main body) last: XGo does not accept a
// declaration after the first top-level statement.
var declPool = []string{"func f() {}", "var v = 1", "const k = 2", "type T int", "func g(a int) int {\n\treturn a\n}", "// trailing"}
var stmtPool = []string{"println \"hi\"", "fmt.Println(1)", "x := 1\n_ = x", "echo strings.ToUpper(\"a\")", "// trailing"}

// classDeclPool only holds declarations that may follow the imports of a class file.
var classDeclPool = []string{"func f() {}", "func g(a int) int {\n\treturn a\n}", "// trailing", "const k = 2"}

func quotePath(t *rapid.T, p string) string {
	switch rapid.IntRange(0, 9).Draw(t, "quote") {
	case 0:
		return "`" + p + "`"
	case 1: // escaped spelling of the first byte
		if p[0] < 0x80 {
			return fmt.Sprintf("\"\\x%02x%s\"", p[0], p[1:])
		}
	}
	return strconv.Quote(p)
}

// specText draws one spec; joined says that a ';' and another spec follow on the same line, so a
// line comment (which would swallow them) is not drawn.
func specText(t *rapid.T, last *imp, joined bool) string {
	var s imp
	if last.Path != "" && rapid.IntRange(0, 5).Draw(t, "repeat") == 0 {
		s = *last // exact duplicate of the previous spec
	} else {
		s = imp{rapid.SampledFrom(namePool).Draw(t, "name"), rapid.SampledFrom(pathPool).Draw(t, "path")}
	}
	*last = s
	var b strings.Builder
	if rapid.IntRange(0, 11).Draw(t, "lead") == 0 {
		b.WriteString(rapid.SampledFrom(blockComments).Draw(t, "leadc") + " ")
	}
	if s.Name != "" {
		b.WriteString(s.Name + " ")
	}
	b.WriteString(quotePath(t, s.Path))
	trail := rapid.IntRange(0, 11).Draw(t, "trail")
	if joined && trail != 2 {
		trail = 11
	}
	switch trail {
	case 0, 1:
		b.WriteString(" " + rapid.SampledFrom(lineComments).Draw(t, "tc"))
	case 2:
		b.WriteString(" " + rapid.SampledFrom(blockComments).Draw(t, "tc"))
	case 3:
		b.WriteString(" " + rapid.SampledFrom(blockComments).Draw(t, "tc") + " " + rapid.SampledFrom(lineComments).Draw(t, "tc2"))
	case 4:
		b.WriteString(" " + rapid.SampledFrom(multiLineBlock).Draw(t, "tc"))
	}
	return b.String()
}

func fileGen() *rapid.Generator[Case] {
	return rapid.Custom(func(t *rapid.T) Case {
		var b strings.Builder
		class := rapid.IntRange(0, 4).Draw(t, "class") == 0
		switch rapid.IntRange(0, 5).Draw(t, "head") {
		case 0:
			b.WriteString("// header\n\n")
		case 1:
			b.WriteString("/* header */\n")
		}
		if !class && rapid.IntRange(0, 2).Draw(t, "pkg") > 0 {
			b.WriteString("package " + rapid.SampledFrom([]string{"main", "p"}).Draw(t, "pkgname") + "\n\n")
		}
		ndecl := rapid.IntRange(0, 4).Draw(t, "ndecl")
		var last imp
		for d := 0; d < ndecl; d++ {
			if rapid.IntRange(0, 7).Draw(t, "declcomment") == 0 {
				b.WriteString("// about the imports\n")
			}
			if rapid.IntRange(0, 3).Draw(t, "grouped") == 0 {
				b.WriteString("import " + specText(t, &last, false) + "\n")
			} else {
				b.WriteString("import (")
				n := rapid.IntRange(0, 8).Draw(t, "nspec")
				if n > 0 || rapid.Bool().Draw(t, "nl") {
					b.WriteString("\n")
				}
				for i := 0; i < n; i++ {
					switch rapid.IntRange(0, 15).Draw(t, "before") {
					case 0, 1:
						b.WriteString("\n") // blank line: new run
					case 2:
						b.WriteString("\t" + rapid.SampledFrom(lineComments).Draw(t, "doc") + "\n") // doc comment: new run
					case 3:
						b.WriteString("\t" + rapid.SampledFrom(blockComments).Draw(t, "doc") + "\n")
					case 4:
						b.WriteString("\n\t" + rapid.SampledFrom(lineComments).Draw(t, "free") + "\n\n") // free-standing comment
					}
					joined := i+1 < n && rapid.IntRange(0, 15).Draw(t, "semi") == 0
					b.WriteString("\t" + specText(t, &last, joined))
					if joined {
						b.WriteString("; ")
						i++
						b.WriteString(specText(t, &last, false))
					}
					b.WriteString("\n")
				}
				if rapid.IntRange(0, 9).Draw(t, "tailblank") == 0 {
					b.WriteString("\n")
				}
				b.WriteString(")\n")
			}
			if rapid.Bool().Draw(t, "gap") {
				b.WriteString("\n")
			}
		}
		pool := declPool
		if class {
			pool = classDeclPool
		}
		for i, n := 0, rapid.IntRange(0, 2).Draw(t, "ndecls"); i < n; i++ {
			b.WriteString("\n" + rapid.SampledFrom(pool).Draw(t, "code") + "\n")
		}
		for i, n := 0, rapid.IntRange(0, 2).Draw(t, "nstmts"); i < n; i++ {
			b.WriteString("\n" + rapid.SampledFrom(stmtPool).Draw(t, "code") + "\n")
		}
		s := b.String()
		if rapid.IntRange(0, 9).Draw(t, "nofinalnl") == 0 {
			s = strings.TrimRight(s, "\n")
		}
		return Case{Src: vk.Bytes(s), Class: class}
	})
}

func TestGenerated(t *testing.T) {
	g := fileGen()
	vk.R.Rapid(t, 1, 30000, 1200000, func(t *rapid.T) {
		run(t, g.Draw(t, "file"), "src=generated")
	})
}

// TestSmallGroups enumerates every group of up to 4 specs over a 3-path × 2-name alphabet with
// a {newline, blank line} separator between neighbours: all orders, all duplicate patterns.
func TestSmallGroups(t *testing.T) {
	atoms := []string{`"b"`, `"a"`, `x "a"`, `"a/b"`, `x "b"`, `_ "a"`}
	seps := []string{"\n", "\n\n"}
	idx := 0
	for n := 0; n <= 4; n++ {
		total := 1
		for i := 0; i < n; i++ {
			total *= len(atoms)
		}
		nsep := 1
		for i := 1; i < n; i++ {
			nsep *= len(seps)
		}
		for a := 0; a < total; a++ {
			for s := 0; s < nsep; s++ {
				idx++
				if idx%vk.R.Shards != vk.R.Shard {
					continue
				}
				var b strings.Builder
				b.WriteString("import (\n")
				x, y := a, s
				for i := 0; i < n; i++ {
					if i > 0 {
						if y%len(seps) == 1 {
							b.WriteString("\n")
						}
						y /= len(seps)
					}
					b.WriteString("\t" + atoms[x%len(atoms)] + "\n")
					x /= len(atoms)
				}
				b.WriteString(")\n")
				run(t, Case{Src: vk.Bytes(b.String())}, "src=small-groups")
			}
		}
	}
	vk.R.Set("small_groups_enumerated", int64(idx))
}

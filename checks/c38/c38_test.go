//go:build verif

// C38 — JSON-RPC header framing round-trips any message stream; malformed streams yield errors,
// never a panic, and never consume more than the declared content length.
package c38

import (
	"bytes"
	"context"
	"encoding/json"
	"errors"
	"fmt"
	"io"
	"reflect"
	"strconv"
	"strings"
	"testing"
	"unicode/utf8"

	"github.com/goplus/xgo/x/jsonrpc2"
	"pgregory.net/rapid"

	"verif/internal/vk"
)

func TestMain(m *testing.M) {
	vk.Main(m, "C38", "exploration",
		"(a) sequences of 0-8 messages (calls with Int64ID over the whole int64 range or StringID incl. empty/Unicode, notifications, responses with any JSON result incl. null/absent, wire errors with code/message/optional data, plain and wrapped Go errors) written with HeaderFramer().Writer and read back with HeaderFramer().Reader over a drawn chunking of the same bytes; oracle = same count, order, kind, id (type and value), method, JSON-token-equal params/result, error code/message/data, then io.EOF. "+
			"(b) byte streams built by the harness' own encoder: valid LSP frames around one mutated frame (bad body with exact framing, Content-Length short/long/missing/zero/negative/non-numeric/overflow/huge, header-name case, LF-only, missing blank line, duplicate length, truncation anywhere) and fragment soup; oracle = every Read returns exactly one of (message, error) without panic and makes progress, reported byte counts never exceed the stream, frames with intact framing consume exactly header+L bytes (the planted valid tail is read back equal), streams that are malformed by the LSP grammar yield an error. "+
			"Non-trivial = at least 3 messages of at least 2 kinds, or a malformed stream whose valid tail is still expected to be read; distinct = hash of the case document")
}

var ctx = context.Background()

// ---- case types ------------------------------------------------------------------------------

// Msg is the model of one JSON-RPC message (self-contained, JSON-serialisable).
type Msg struct {
	Kind    string  `json:"kind"`               // call | notify | result | error
	IDInt   *int64  `json:"id_int,omitempty"`   // Int64ID
	IDStr   *string `json:"id_str,omitempty"`   // StringID
	Method  string  `json:"method,omitempty"`   // call, notify
	Body    *string `json:"body,omitempty"`     // JSON text of params (call, notify) or result (result, error); nil = absent
	ErrKind string  `json:"err_kind,omitempty"` // wire | wiredata | plain | wrapped
	Code    int64   `json:"code,omitempty"`
	ErrMsg  string  `json:"err_msg,omitempty"`
	Outer   string  `json:"outer,omitempty"` // wrapped: fmt.Errorf("<outer>: %w", NewError(code, err_msg))
	Data    *string `json:"data,omitempty"`  // wiredata: JSON text
}

type RoundCase struct {
	Msgs  []Msg `json:"msgs"`
	Chunk int   `json:"chunk"` // the byte reader hands out at most Chunk bytes per Read (0 = everything)
}

type Expect struct {
	Outcome string `json:"outcome"` // msg | err | eof | any
	N       int64  `json:"n"`       // expected byte count of this Read, -1 = not asserted
	Msg     *Msg   `json:"msg,omitempty"`
}

type StreamCase struct {
	Label  string   `json:"label"`
	Data   vk.Bytes `json:"data"`
	Chunk  int      `json:"chunk"`
	Expect []Expect `json:"expect"` // expectations for the first len(Expect) reads; later reads: universal rules only
}

// ---- harness side helpers ----------------------------------------------------------------------

type chunkReader struct {
	data []byte
	max  int
}

func (c *chunkReader) Read(p []byte) (int, error) {
	if len(c.data) == 0 {
		return 0, io.EOF
	}
	n := len(p)
	if c.max > 0 && n > c.max {
		n = c.max
	}
	if n > len(c.data) {
		n = len(c.data)
	}
	copy(p, c.data[:n])
	c.data = c.data[n:]
	return n, nil
}

// canon renders a JSON text as its token stream (strings unescaped, numbers literal, key order
// and duplicates preserved), so that two spellings of the same value compare equal.
func canon(s []byte) (string, error) {
	dec := json.NewDecoder(bytes.NewReader(s))
	dec.UseNumber()
	var b strings.Builder
	for {
		tok, err := dec.Token()
		if err == io.EOF {
			break
		}
		if err != nil {
			return "", err
		}
		switch v := tok.(type) {
		case json.Delim:
			b.WriteString("D" + v.String())
		case string:
			b.WriteString("S" + strconv.Quote(v))
		case json.Number:
			b.WriteString("N" + v.String())
		case bool:
			b.WriteString("B" + strconv.FormatBool(v))
		case nil:
			b.WriteString("Z")
		}
		b.WriteByte(' ')
	}
	if b.Len() == 0 {
		return "", errors.New("empty JSON text")
	}
	return b.String(), nil
}

const maxExact = int64(1) << 53

func (m Msg) id() jsonrpc2.ID {
	switch {
	case m.IDInt != nil:
		return jsonrpc2.Int64ID(*m.IDInt)
	case m.IDStr != nil:
		return jsonrpc2.StringID(*m.IDStr)
	}
	return jsonrpc2.ID{}
}

func (m Msg) raw() json.RawMessage {
	if m.Body == nil {
		return nil
	}
	return json.RawMessage(*m.Body)
}

// build makes the API-level message through the package's public constructors / fields.
func (m Msg) build() (jsonrpc2.Message, error) {
	switch m.Kind {
	case "call", "notify":
		return &jsonrpc2.Request{ID: m.id(), Method: m.Method, Params: m.raw()}, nil
	case "result":
		return &jsonrpc2.Response{ID: m.id(), Result: m.raw()}, nil
	case "error":
		var e error
		switch m.ErrKind {
		case "wire":
			e = jsonrpc2.NewError(m.Code, m.ErrMsg)
		case "wiredata":
			e = jsonrpc2.NewError(m.Code, m.ErrMsg)
			// the Data field of the wire error is exported but no constructor sets it
			f := reflect.ValueOf(e).Elem().FieldByName("Data")
			if !f.IsValid() || !f.CanSet() || m.Data == nil {
				return nil, errors.New("cannot set Data of the wire error")
			}
			f.SetBytes([]byte(*m.Data))
		case "plain":
			e = errors.New(m.ErrMsg)
		case "wrapped":
			e = fmt.Errorf("%s: %w", m.Outer, jsonrpc2.NewError(m.Code, m.ErrMsg))
		default:
			return nil, fmt.Errorf("unknown err_kind %q", m.ErrKind)
		}
		return &jsonrpc2.Response{ID: m.id(), Result: m.raw(), Error: e}, nil
	}
	return nil, fmt.Errorf("unknown kind %q", m.Kind)
}

type wErr struct {
	Code    int64           `json:"code"`
	Message string          `json:"message"`
	Data    json.RawMessage `json:"data"`
}

func sameJSON(field string, got json.RawMessage, want *string) *vk.Verdict {
	if want == nil {
		if len(got) != 0 {
			return vk.Bad(field+"-spurious", "%s was absent when written, read back as %q", field, got)
		}
		return nil
	}
	if len(got) == 0 {
		return vk.Bad(field+"-lost", "%s %q was written, read back absent", field, *want)
	}
	cw, err := canon([]byte(*want))
	if err != nil {
		return vk.Bad("harness", "generator produced invalid JSON %q: %v", *want, err)
	}
	cg, err := canon(got)
	if err != nil {
		return vk.Bad(field+"-invalid", "%s read back as invalid JSON %q: %v", field, got, err)
	}
	if cw != cg {
		return vk.Bad(field+"-mismatch", "%s written %q, read back %q", field, *want, got)
	}
	return nil
}

func sameID(got jsonrpc2.ID, want Msg) *vk.Verdict {
	raw := got.Raw()
	switch {
	case want.IDInt != nil:
		v, ok := raw.(int64)
		if !ok {
			return vk.Bad("id-type", "Int64ID(%d) read back as %T(%v)", *want.IDInt, raw, raw)
		}
		if v != *want.IDInt {
			if *want.IDInt > maxExact || *want.IDInt < -maxExact {
				return vk.Bad("id-precision", "Int64ID(%d) read back as %d", *want.IDInt, v)
			}
			return vk.Bad("id-mismatch", "Int64ID(%d) read back as %d", *want.IDInt, v)
		}
	case want.IDStr != nil:
		v, ok := raw.(string)
		if !ok {
			return vk.Bad("id-type", "StringID(%q) read back as %T(%v)", *want.IDStr, raw, raw)
		}
		if v != *want.IDStr {
			return vk.Bad("id-mismatch", "StringID(%q) read back as %q", *want.IDStr, v)
		}
	default:
		if got.IsValid() {
			return vk.Bad("id-spurious", "message without id read back with id %T(%v)", raw, raw)
		}
	}
	return nil
}

// sameMsg compares a decoded message with the model. A verdict of class id-precision is
// returned only when every other field is equal, so the search continues behind that finding.
func sameMsg(got jsonrpc2.Message, want Msg) *vk.Verdict {
	var idv *vk.Verdict
	switch want.Kind {
	case "call", "notify":
		r, ok := got.(*jsonrpc2.Request)
		if !ok {
			return vk.Bad("kind-mismatch", "%s %q read back as %T", want.Kind, want.Method, got)
		}
		if r.Method != want.Method {
			return vk.Bad("method-mismatch", "method %q read back as %q", want.Method, r.Method)
		}
		if r.IsCall() != (want.Kind == "call") {
			return vk.Bad("kind-mismatch", "%s read back with IsCall()=%v", want.Kind, r.IsCall())
		}
		idv = sameID(r.ID, want)
		if idv != nil && idv.Class != "id-precision" {
			return idv
		}
		if v := sameJSON("params", r.Params, want.Body); v != nil {
			return v
		}
	case "result", "error":
		r, ok := got.(*jsonrpc2.Response)
		if !ok {
			return vk.Bad("kind-mismatch", "response read back as %T", got)
		}
		idv = sameID(r.ID, want)
		if idv != nil && idv.Class != "id-precision" {
			return idv
		}
		if want.Kind == "result" {
			if r.Error != nil {
				return vk.Bad("error-spurious", "response without error read back with error %v", r.Error)
			}
			if v := sameJSON("result", r.Result, want.Body); v != nil {
				return v
			}
			break
		}
		// NewResponse: "If err is set result may be ignored" — the result is not compared
		if r.Error == nil {
			return vk.Bad("error-lost", "response with error (%d, %q) read back without error", want.Code, want.ErrMsg)
		}
		js, err := json.Marshal(r.Error)
		var we wErr
		if err == nil {
			err = json.Unmarshal(js, &we)
		}
		if err != nil {
			return vk.Bad("error-shape", "error read back as %T which does not look like a wire error: %v", r.Error, err)
		}
		code, text := want.Code, want.ErrMsg
		switch want.ErrKind {
		case "plain":
			code = 0
		case "wrapped":
			text = want.Outer + ": " + want.ErrMsg
		}
		if we.Code != code {
			return vk.Bad("error-code", "error code %d (%s) read back as %d", code, want.ErrKind, we.Code)
		}
		if we.Message != text || r.Error.Error() != text {
			return vk.Bad("error-message", "error message %q (%s) read back as %q / Error()=%q", text, want.ErrKind, we.Message, r.Error.Error())
		}
		var data *string
		if want.ErrKind == "wiredata" {
			data = want.Data
		}
		if v := sameJSON("error-data", we.Data, data); v != nil {
			return v
		}
	default:
		return vk.Bad("harness", "unknown kind %q", want.Kind)
	}
	return idv
}

// ---- oracle (a): write, read back -------------------------------------------------------------

func roundTrip(c RoundCase) *vk.Verdict {
	var buf bytes.Buffer
	w := jsonrpc2.HeaderFramer().Writer(&buf)
	for i, m := range c.Msgs {
		msg, err := m.build()
		if err != nil {
			return vk.Bad("harness", "message %d: %v", i, err)
		}
		if _, err := w.Write(ctx, msg); err != nil {
			return vk.Bad("write-error", "message %d (%+v): Write failed: %v", i, m, err)
		}
	}
	r := jsonrpc2.HeaderFramer().Reader(&chunkReader{data: buf.Bytes(), max: c.Chunk})
	var precision *vk.Verdict
	for i, m := range c.Msgs {
		got, _, err := r.Read(ctx)
		if err != nil {
			return vk.Bad("read-error", "message %d of %d: Read failed: %v (stream %q)", i, len(c.Msgs), err, clipb(buf.Bytes()))
		}
		if got == nil {
			return vk.Bad("nil-message", "message %d: Read returned nil message and nil error", i)
		}
		if v := sameMsg(got, m); v != nil {
			if v.Class != "id-precision" {
				v.Detail = fmt.Sprintf("message %d: %s", i, v.Detail)
				return v
			}
			if precision == nil {
				precision = v
			}
		}
	}
	got, n, err := r.Read(ctx)
	if err != io.EOF || got != nil {
		return vk.Bad("no-eof", "after %d messages Read returned (%v, %d, %v), want io.EOF", len(c.Msgs), got, n, err)
	}
	return precision
}

func clipb(b []byte) string {
	if len(b) > 300 {
		return string(b[:300]) + "…"
	}
	return string(b)
}

var roundOracle = vk.Register("round", roundTrip)

// ---- oracle (b): arbitrary streams ------------------------------------------------------------

type streamInfo struct {
	plainEOFMid bool // a Read consumed bytes and reported a bare io.EOF
	reads       int
	msgs        int
}

func readStream(c StreamCase) (*vk.Verdict, streamInfo) {
	var in streamInfo
	r := jsonrpc2.HeaderFramer().Reader(&chunkReader{data: []byte(c.Data), max: c.Chunk})
	var sum int64
	total := int64(len(c.Data))
	i := 0
	for ; ; i++ {
		if i > len(c.Data)+4 {
			return vk.Bad("no-progress", "%d reads on a %d-byte stream without reaching the end", i, len(c.Data)), in
		}
		msg, n, err := r.Read(ctx)
		in.reads++
		if msg != nil && err != nil {
			return vk.Bad("message-and-error", "read %d returned both a message and error %v", i, err), in
		}
		if msg == nil && err == nil {
			return vk.Bad("nil-message", "read %d returned neither a message nor an error", i), in
		}
		if n < 0 {
			return vk.Bad("byte-count", "read %d reported %d bytes", i, n), in
		}
		sum += n
		if sum > total {
			return vk.Bad("byte-count", "after read %d the reader reported %d bytes consumed of a %d-byte stream", i, sum, total), in
		}
		if msg != nil {
			in.msgs++
		}
		if err == io.EOF && n > 0 {
			in.plainEOFMid = true
		}
		if i < len(c.Expect) {
			e := c.Expect[i]
			switch e.Outcome {
			case "msg":
				if err != nil {
					return vk.Bad("valid-frame-rejected", "read %d [%s]: expected message %s, got error %v", i, c.Label, key(e.Msg), err), in
				}
				if v := sameMsg(msg, *e.Msg); v != nil {
					v.Class = "frame-" + v.Class
					v.Detail = fmt.Sprintf("read %d [%s]: %s", i, c.Label, v.Detail)
					return v, in
				}
			case "err":
				if err == nil {
					return vk.Bad("malformed-accepted", "read %d [%s]: expected an error, got message %s", i, c.Label, show(msg)), in
				}
				if n == 0 {
					return vk.Bad("malformed-accepted", "read %d [%s]: expected an error after consuming input, got (%v, n=0)", i, c.Label, err), in
				}
			case "eof":
				if err != io.EOF || n != 0 {
					return vk.Bad("no-eof", "read %d [%s]: expected io.EOF at the end of the stream, got (%v, %d, %v)", i, c.Label, show(msg), n, err), in
				}
			case "any":
			default:
				return vk.Bad("harness", "unknown outcome %q", e.Outcome), in
			}
			if e.N >= 0 && n != e.N {
				return vk.Bad("consumed-bytes", "read %d [%s]: consumed %d bytes, the frame (header + declared length) is %d bytes", i, c.Label, n, e.N), in
			}
		}
		if n == 0 && err != nil {
			break
		}
	}
	if i+1 < len(c.Expect) {
		return vk.Bad("stream-ended-early", "[%s] reader stopped after %d reads, %d were expected", c.Label, i+1, len(c.Expect)), in
	}
	return nil, in
}

func show(m jsonrpc2.Message) string {
	if m == nil {
		return "<nil>"
	}
	b, err := jsonrpc2.EncodeMessage(m)
	if err != nil {
		return fmt.Sprintf("%T(%v)", m, err)
	}
	return string(b)
}

var streamOracle = vk.Register("stream", func(c StreamCase) *vk.Verdict { v, _ := readStream(c); return v })

// ---- generators -------------------------------------------------------------------------------

var strPool = []string{"", "a", "id-1", "1", "0", "null", "é", "日本語", "😀", "a\"b", "a\\b", "tab\there", "line\nbreak", "<script>&amp;", "  ",
	"\x00", "\x7f", " ", "Content-Length: 5\r\n\r\n{}", "\ufeff", "�", "🏳️‍🌈", strings.Repeat("x", 300)}

func validStr() *rapid.Generator[string] {
	return rapid.OneOf(
		rapid.SampledFrom(strPool),
		rapid.StringN(0, 12, 40).Filter(utf8.ValidString),
		rapid.StringMatching(`[a-zA-Z0-9/$_.-]{1,12}`),
	)
}

var methodPool = []string{"initialize", "textDocument/didOpen", "$/cancelRequest", "shutdown", "exit", "m", " ", "0", "null", "é/ü", "a\"b", "方法", "<m>", "a\nb"}

func method() *rapid.Generator[string] {
	return rapid.OneOf(rapid.SampledFrom(methodPool), validStr().Filter(func(s string) bool { return s != "" }))
}

var idPool = []int64{0, 1, -1, 2, 42, 1 << 31, -(1 << 31), 1<<53 - 1, 1 << 53, -(1 << 53), 1 << 62, -(1 << 62), -1 << 63}

// ids outside ±2^53: the known finding C38-id-precision lives here
var bigIDPool = []int64{1<<53 + 1, -(1<<53 + 1), 1152921504606846977, 1<<63 - 1, -1<<63 + 1, 1<<62 + 1, 1<<60 + 3, 9007199254740993}

type idv struct {
	I *int64
	S *string
}

func genID(allowBig bool) *rapid.Generator[idv] {
	return rapid.Custom(func(t *rapid.T) idv {
		k := rapid.IntRange(0, 9).Draw(t, "idkind")
		switch {
		case k <= 2:
			s := validStr().Draw(t, "sid")
			return idv{S: &s}
		case k <= 4:
			v := rapid.Int64Range(-1000, 1000).Draw(t, "iid")
			return idv{I: &v}
		case k <= 6:
			v := rapid.Int64Range(-maxExact, maxExact).Draw(t, "iid")
			return idv{I: &v}
		case k == 7:
			v := rapid.SampledFrom(idPool).Draw(t, "iid")
			return idv{I: &v}
		default:
			if !allowBig {
				v := rapid.Int64Range(-maxExact, maxExact).Draw(t, "iid")
				return idv{I: &v}
			}
			if k == 8 {
				v := rapid.SampledFrom(bigIDPool).Draw(t, "iid")
				return idv{I: &v}
			}
			v := rapid.Int64().Draw(t, "iid")
			return idv{I: &v}
		}
	})
}

var numPool = []string{"0", "-0", "1", "-1", "42", "1.5", "-2.25", "1e10", "1E+2", "1e-7", "0.1", "123456789012345678901234567890",
	"9007199254740993", "1.7976931348623157e308", "1e400", "-9223372036854775808", "0e0", "3.000"}

var strLitPool = []string{`""`, `"a"`, `"é"`, `"😀"`, `"a\/b"`, `"<>&"`, "\" \"", `"<"`, `"\\\"\b\f\n\r\t"`, `"日本"`, `"\u0000"`, `" "`,
	`"Content-Length: 1\r\n\r\n"`}

func jsonValue(depth int) *rapid.Generator[string] { return jsonValueK(depth, 0) }

func jsonValueK(depth, lo int) *rapid.Generator[string] {
	return rapid.Custom(func(t *rapid.T) string {
		hi := 8
		if depth <= 0 && lo == 0 {
			hi = 5
		}
		switch rapid.IntRange(lo, hi).Draw(t, "jkind") {
		case 0:
			return "null"
		case 1:
			return rapid.SampledFrom([]string{"true", "false"}).Draw(t, "bool")
		case 2:
			return rapid.SampledFrom(numPool).Draw(t, "num")
		case 3:
			return strconv.FormatInt(rapid.Int64().Draw(t, "int"), 10)
		case 4:
			return rapid.SampledFrom(strLitPool).Draw(t, "strlit")
		case 5:
			b, _ := json.Marshal(validStr().Draw(t, "str"))
			return string(b)
		case 6, 7:
			n := rapid.IntRange(0, 3).Draw(t, "alen")
			sp := rapid.SampledFrom([]string{"", "", " ", "\n\t"}).Draw(t, "ws")
			parts := make([]string, n)
			for i := range parts {
				parts[i] = jsonValue(depth-1).Draw(t, "elem")
			}
			return "[" + sp + strings.Join(parts, ","+sp) + sp + "]"
		default:
			n := rapid.IntRange(0, 3).Draw(t, "olen")
			sp := rapid.SampledFrom([]string{"", "", " ", "\r\n"}).Draw(t, "ws")
			parts := make([]string, n)
			for i := range parts {
				k, _ := json.Marshal(rapid.OneOf(rapid.SampledFrom([]string{"a", "b", "", "jsonrpc", "id", "method", "é", "a"}), validStr()).Draw(t, "key"))
				parts[i] = string(k) + sp + ":" + sp + jsonValue(depth-1).Draw(t, "val")
			}
			return "{" + sp + strings.Join(parts, ","+sp) + sp + "}"
		}
	})
}

func optJSON(t *rapid.T, label string, structured bool) *string {
	if rapid.IntRange(0, 3).Draw(t, label+"?") == 0 {
		return nil
	}
	var s string
	if structured && rapid.IntRange(0, 2).Draw(t, label+"-struct") > 0 {
		s = jsonValueK(2, 6).Draw(t, label)
	} else {
		s = jsonValue(2).Draw(t, label)
	}
	return &s
}

// genMsg draws one message. wireOnly restricts to what the harness' own encoder can spell
// (no Go-side error kinds), allowBig admits ids beyond ±2^53.
func genMsg(wireOnly, allowBig bool) *rapid.Generator[Msg] {
	return rapid.Custom(func(t *rapid.T) Msg {
		var m Msg
		m.Kind = rapid.SampledFrom([]string{"call", "call", "notify", "result", "result", "error"}).Draw(t, "kind")
		if m.Kind != "notify" {
			id := genID(allowBig).Draw(t, "id")
			m.IDInt, m.IDStr = id.I, id.S
		}
		switch m.Kind {
		case "call", "notify":
			m.Method = method().Draw(t, "method")
			m.Body = optJSON(t, "params", true)
		case "result":
			m.Body = optJSON(t, "result", false)
		case "error":
			kinds := []string{"wire", "wire", "wiredata", "wiredata", "plain", "wrapped"}
			if wireOnly {
				kinds = kinds[:4]
			}
			m.ErrKind = rapid.SampledFrom(kinds).Draw(t, "errkind")
			if m.ErrKind != "plain" {
				m.Code = rapid.OneOf(rapid.SampledFrom([]int64{0, -32700, -32600, -32601, -32602, -32603, -32000, -32001, 1, -1, 1<<63 - 1, -1 << 63, 1<<53 + 1}),
					rapid.Int64Range(-40000, 40000), rapid.Int64()).Draw(t, "code")
			}
			m.ErrMsg = validStr().Draw(t, "errmsg")
			if m.ErrKind == "wrapped" {
				m.Outer = validStr().Draw(t, "outer")
			}
			if m.ErrKind == "wiredata" {
				s := jsonValue(2).Draw(t, "data")
				m.Data = &s
			}
			if !wireOnly && rapid.IntRange(0, 4).Draw(t, "result-too") == 0 {
				s := jsonValue(1).Draw(t, "result")
				m.Body = &s
			}
		}
		return m
	})
}

var chunks = []int{0, 0, 1, 2, 3, 7, 16, 64, 4096}

type failer interface {
	Fatalf(string, ...any)
	Helper()
}

func key(c any) string {
	js, _ := json.Marshal(c)
	return string(js)
}

func runRound(t failer, c RoundCase, class string) {
	v := roundOracle(c)
	kinds := map[string]bool{}
	big := false
	for _, m := range c.Msgs {
		kinds[m.Kind] = true
		vk.R.Class("msg=" + m.Kind + m.ErrKind)
		switch {
		case m.IDInt != nil && (*m.IDInt > maxExact || *m.IDInt < -maxExact):
			big = true
			vk.R.Class("id=int-beyond-2^53")
		case m.IDInt != nil:
			vk.R.Class("id=int")
		case m.IDStr != nil:
			vk.R.Class("id=string")
		}
	}
	nt := len(c.Msgs) >= 3 && len(kinds) >= 2
	k := key(c)
	vk.R.Case(nt, k)
	vk.R.Class(class)
	vk.R.Class(fmt.Sprintf("round:len=%d", len(c.Msgs)))
	if big {
		vk.R.Class("round:has-id-beyond-2^53")
	}
	if nt {
		vk.R.Sample(k)
	}
	vk.R.Check(t, "round", c, v)
}

func TestRoundTrip(t *testing.T) {
	g := rapid.SliceOfN(genMsg(false, true), 0, 8)
	vk.R.Rapid(t, 1, 40000, 750000, func(t *rapid.T) {
		c := RoundCase{Msgs: g.Draw(t, "msgs"), Chunk: rapid.SampledFrom(chunks).Draw(t, "chunk")}
		runRound(t, c, "src=round")
	})
}

// TestRoundTripSafeIDs is the same search with ids kept inside ±2^53, so that every case is
// compared completely even while the id-precision finding is open.
func TestRoundTripSafeIDs(t *testing.T) {
	g := rapid.SliceOfN(genMsg(false, false), 0, 8)
	vk.R.Rapid(t, 2, 20000, 300000, func(t *rapid.T) {
		c := RoundCase{Msgs: g.Draw(t, "msgs"), Chunk: rapid.SampledFrom(chunks).Draw(t, "chunk")}
		vk.R.Excluded("steered-away:id-beyond-2^53")
		runRound(t, c, "src=round-safe-ids")
	})
}

// TestIDTable: every boundary id alone, as a call and as a response (deterministic).
func TestIDTable(t *testing.T) {
	if vk.R.Shard != 0 {
		return
	}
	ids := append(append([]int64{}, idPool...), bigIDPool...)
	for _, e := range []int64{10, 20, 31, 32, 52, 53, 54, 62} {
		for _, d := range []int64{-1, 0, 1} {
			ids = append(ids, int64(1)<<e+d, -(int64(1)<<e + d))
		}
	}
	for _, id := range ids {
		id := id
		null := "null"
		runRound(t, RoundCase{Msgs: []Msg{{Kind: "call", IDInt: &id, Method: "m"}}}, "src=id-table")
		runRound(t, RoundCase{Msgs: []Msg{{Kind: "result", IDInt: &id, Body: &null}}}, "src=id-table")
	}
	for _, s := range strPool {
		s := s
		runRound(t, RoundCase{Msgs: []Msg{{Kind: "call", IDStr: &s, Method: "m"}, {Kind: "result", IDStr: &s}}}, "src=id-table")
	}
}

// ---- malformed streams --------------------------------------------------------------------------

// wire spells a message the way the specification does, with the harness' own encoder.
func wire(m Msg) []byte {
	var parts []string
	parts = append(parts, `"jsonrpc":"2.0"`)
	switch {
	case m.IDInt != nil:
		parts = append(parts, `"id":`+strconv.FormatInt(*m.IDInt, 10))
	case m.IDStr != nil:
		b, _ := json.Marshal(*m.IDStr)
		parts = append(parts, `"id":`+string(b))
	}
	switch m.Kind {
	case "call", "notify":
		b, _ := json.Marshal(m.Method)
		parts = append(parts, `"method":`+string(b))
		if m.Body != nil {
			parts = append(parts, `"params":`+*m.Body)
		}
	case "result":
		if m.Body != nil {
			parts = append(parts, `"result":`+*m.Body)
		}
	case "error":
		b, _ := json.Marshal(m.ErrMsg)
		e := `{"code":` + strconv.FormatInt(m.Code, 10) + `,"message":` + string(b)
		if m.ErrKind == "wiredata" {
			e += `,"data":` + *m.Data
		}
		parts = append(parts, `"error":`+e+"}")
	}
	return []byte("{" + strings.Join(parts, ",") + "}")
}

type segment struct {
	data   []byte
	expect Expect
	resync bool // the reads after this segment start at the next segment
	// cuttable says a truncation inside this segment must end in an error
	cuttable bool
	// usesNext says the byte count of the expectation depends on the bytes after the segment
	usesNext bool
}

func validFrame(t *rapid.T, m Msg) segment {
	body := wire(m)
	hdr := ""
	extra := []string{"Content-Type: application/vscode-jsonrpc; charset=utf-8\r\n", "X-Trace: a:b:c\r\n", "Content-Type:\r\n", "content-type: x\r\n"}
	if rapid.IntRange(0, 3).Draw(t, "extra-before") == 0 {
		hdr += rapid.SampledFrom(extra).Draw(t, "hdr")
	}
	hdr += fmt.Sprintf("Content-Length: %d\r\n", len(body))
	if rapid.IntRange(0, 3).Draw(t, "extra-after") == 0 {
		hdr += rapid.SampledFrom(extra).Draw(t, "hdr")
	}
	hdr += "\r\n"
	mm := m
	return segment{data: append([]byte(hdr), body...), expect: Expect{Outcome: "msg", N: int64(len(hdr) + len(body)), Msg: &mm}, resync: true, cuttable: true}
}

var badBodies = []string{
	// not JSON
	``, `{`, `}`, `{"jsonrpc":"2.0","id":1,"method":"m"`, `{"jsonrpc":"2.0","id":1,"method":"m"}}`, `{"jsonrpc":"2.0","id":1,"method":"m"}x`, `{"jsonrpc":"2.0","id":1,"method":"m"}{}`,
	`{'jsonrpc':'2.0','id':1,'method':'m'}`, `{"jsonrpc":"2.0","id":1,"method":"m",}`, `{"jsonrpc":"2.0" "id":1}`, "\x00\x01\x02", `Content-Length: 2`, "{\"jsonrpc\":\"2.0\",\"id\":1,\"method\":\"\xff\xfe\"",
	`{"jsonrpc":"2.0","id":01,"method":"m"}`, `{"jsonrpc":"2.0","id":1,"method":"m","params":[1,]}`, `{"jsonrpc":"2.0","id":1,"method":"m","params":{a:1}}`,
	// JSON, but not an object
	`[]`, `[{"jsonrpc":"2.0","id":1,"method":"m"}]`, `"jsonrpc"`, `12`, `true`, `null`,
	// wrong or missing version
	`{"id":1,"method":"m"}`, `{"jsonrpc":"1.0","id":1,"method":"m"}`, `{"jsonrpc":"2","id":1,"method":"m"}`, `{"jsonrpc":"","id":1,"method":"m"}`, `{"jsonrpc":2.0,"id":1,"method":"m"}`,
	`{"jsonrpc":"2.00","id":1,"result":1}`, `{"jsonrpc":null,"id":1,"result":1}`, `{"jsonrpc":" 2.0","method":"m"}`, `{}`,
	// id of a wrong type
	`{"jsonrpc":"2.0","id":true,"method":"m"}`, `{"jsonrpc":"2.0","id":false,"result":1}`, `{"jsonrpc":"2.0","id":[1],"method":"m"}`, `{"jsonrpc":"2.0","id":{"a":1},"method":"m"}`,
	`{"jsonrpc":"2.0","id":[],"result":null}`, `{"jsonrpc":"2.0","id":{},"error":{"code":1,"message":"x"}}`,
	// neither a request (no method) nor a response (no id)
	`{"jsonrpc":"2.0"}`, `{"jsonrpc":"2.0","result":1}`, `{"jsonrpc":"2.0","method":""}`, `{"jsonrpc":"2.0","id":null,"result":1}`, `{"jsonrpc":"2.0","error":{"code":1,"message":"x"}}`,
	// members of a wrong type
	`{"jsonrpc":"2.0","id":1,"method":5}`, `{"jsonrpc":"2.0","id":1,"method":["m"]}`, `{"jsonrpc":"2.0","id":1,"error":"x"}`, `{"jsonrpc":"2.0","id":1,"error":{"code":"x","message":"m"}}`,
	`{"jsonrpc":"2.0","id":1,"error":{"code":1,"message":5}}`, `{"jsonrpc":"2.0","id":1,"error":[1]}`, `{"jsonrpc":"2.0","id":1,"error":{"code":1.5,"message":"m"}}`,
}

// mutated draws the one broken frame of a stream. next is the bytes that follow it in the
// stream (needed to know what an over-long declared length swallows).
func mutated(t *rapid.T, m Msg, nextLen int) (segment, string) {
	body := wire(m)
	L := len(body)
	hdrOf := func(n any) string { return fmt.Sprintf("Content-Length: %v\r\n\r\n", n) }
	kind := rapid.SampledFrom([]string{"bad-body", "bad-body", "bad-body-derived", "length-short", "length-long", "length-missing", "length-invalid", "length-invalid",
		"length-huge", "header-no-colon", "name-case", "lf-only", "no-blank-line", "length-duplicate", "length-spelling", "body-noise"}).Draw(t, "mutation")
	seg := segment{expect: Expect{Outcome: "err", N: -1}}
	lbl := kind
	switch kind {
	case "bad-body":
		b := rapid.SampledFrom(badBodies).Draw(t, "body")
		if b == "" { // a zero Content-Length is a header error, not a body error
			b = "{"
		}
		h := hdrOf(len(b))
		seg.data = []byte(h + b)
		seg.expect.N = int64(len(h) + len(b))
		seg.resync, seg.cuttable = true, true
	case "bad-body-derived":
		b := body
		how := rapid.SampledFrom([]string{"truncate", "garbage", "version", "unquote"}).Draw(t, "how")
		lbl += ":" + how
		switch how {
		case "truncate":
			b = b[:rapid.IntRange(1, L-1).Draw(t, "keep")]
		case "garbage":
			b = append(append([]byte{}, b...), rapid.SampledFrom([]string{"x", "}", "{}", ",", "\x00", "null", "Content-Length: 1"}).Draw(t, "garbage")...)
		case "version":
			b = bytes.Replace(b, []byte(`"jsonrpc":"2.0"`), []byte(rapid.SampledFrom([]string{`"jsonrpc":"1.0"`, `"jsonrpc":"2.1"`, `"jsonrpc":2`, `"Jsonrpc2":"2.0"`, `"version":"2.0"`}).Draw(t, "ver")), 1)
		case "unquote":
			b = bytes.Replace(b, []byte(`"jsonrpc":"2.0"`), []byte(`jsonrpc:"2.0"`), 1)
		}
		h := hdrOf(len(b))
		seg.data = append([]byte(h), b...)
		seg.expect.N = int64(len(h) + len(b))
		seg.resync, seg.cuttable = true, true
	case "length-short":
		k := rapid.IntRange(1, L-1).Draw(t, "k")
		h := hdrOf(L - k)
		seg.data = append([]byte(h), body...)
		seg.expect.N = int64(len(h) + L - k) // a proper prefix of a JSON object is never a JSON text
	case "length-long":
		k := rapid.IntRange(1, 40).Draw(t, "k")
		h := hdrOf(L + k)
		seg.data = append([]byte(h), body...)
		seg.usesNext = true
		if k <= nextLen {
			seg.expect.N = int64(len(h) + L + k) // the object followed by k bytes of the next header
		} else {
			seg.expect.N = int64(len(h) + L + nextLen)
		}
	case "length-missing":
		h := rapid.SampledFrom([]string{"\r\n", "Content-Type: application/json\r\n\r\n", "X-Length: 10\r\n\r\n", "Content-Lengthy: 10\r\nLength: 3\r\n\r\n"}).Draw(t, "hdr")
		seg.data = append([]byte(h), body...)
		// header-level errors: where the reader gives up is not specified, the count is not asserted
	case "length-invalid":
		val := rapid.SampledFrom([]string{"0", "-1", "-" + strconv.Itoa(L), "abc", "", "1.5", "0x10", "1e2", "12a", "2147483648", "99999999999", "9223372036854775808", "١٢", "1 2", "--1", "NaN"}).Draw(t, "value")
		line := "Content-Length: " + val + "\r\n"
		seg.data = append([]byte(line+"\r\n"), body...)
		lbl += ":" + val
	case "length-huge":
		n := rapid.SampledFrom([]int{L + nextLen + 1, 65536, 1 << 20}).Draw(t, "huge")
		if n <= L+nextLen {
			n = L + nextLen + 1
		}
		h := hdrOf(n)
		seg.data = append([]byte(h), body...)
		seg.usesNext = true
		seg.expect.N = int64(len(h) + L + nextLen)
	case "header-no-colon":
		line := rapid.SampledFrom([]string{"Content-Length 5\r\n", "garbage\r\n", "{}\r\n", "Content-Length=5\r\n"}).Draw(t, "line")
		seg.data = append([]byte(line+hdrOf(L)), body...)
	// the remaining kinds are spellings whose treatment the code does not document: only the
	// universal rules are applied to them
	case "name-case":
		h := strings.Replace(hdrOf(L), "Content-Length", rapid.SampledFrom([]string{"content-length", "CONTENT-LENGTH", "Content-length", "content-Length"}).Draw(t, "name"), 1)
		seg.data = append([]byte(h), body...)
		seg.expect = Expect{Outcome: "any", N: -1}
	case "lf-only":
		h := fmt.Sprintf("Content-Length: %d\n\n", L)
		seg.data = append([]byte(h), body...)
		seg.expect = Expect{Outcome: "any", N: -1}
	case "no-blank-line":
		h := fmt.Sprintf("Content-Length: %d\r\n", L)
		seg.data = append([]byte(h), body...)
		seg.expect = Expect{Outcome: "any", N: -1}
	case "length-duplicate":
		other := rapid.SampledFrom([]string{"0", "1", "-1", "x", strconv.Itoa(L), strconv.Itoa(L + 3)}).Draw(t, "other")
		h := fmt.Sprintf("Content-Length: %d\r\nContent-Length: %s\r\n\r\n", L, other)
		if rapid.Bool().Draw(t, "swap") {
			h = fmt.Sprintf("Content-Length: %s\r\nContent-Length: %d\r\n\r\n", other, L)
		}
		seg.data = append([]byte(h), body...)
		seg.expect = Expect{Outcome: "any", N: -1}
	case "length-spelling":
		h := fmt.Sprintf(rapid.SampledFrom([]string{"Content-Length:%d\r\n\r\n", "Content-Length:   %d  \r\n\r\n", "Content-Length: +%d\r\n\r\n", "Content-Length: 0%d\r\n\r\n",
			" Content-Length: %d\r\n\r\n", "Content-Length : %d\r\n\r\n", "Content-Length:\t%d\r\n\r\n", "Content-Length: %d\r\n \r\n", "Content-Length: %d\r\r\n\r\n"}).Draw(t, "spelling"), L)
		seg.data = append([]byte(h), body...)
		seg.expect = Expect{Outcome: "any", N: -1}
	case "body-noise": // framing intact, one body byte replaced: message or error, but exactly this frame
		b := append([]byte{}, body...)
		b[rapid.IntRange(0, L-1).Draw(t, "pos")] = rapid.Byte().Draw(t, "byte")
		h := hdrOf(L)
		seg.data = append([]byte(h), b...)
		seg.expect = Expect{Outcome: "any", N: int64(len(h) + L)}
		seg.resync = true
	}
	return seg, lbl
}

func genStream(t *rapid.T) StreamCase {
	gm := genMsg(true, false)
	var segs []segment
	for i, n := 0, rapid.IntRange(0, 2).Draw(t, "before"); i < n; i++ {
		segs = append(segs, validFrame(t, gm.Draw(t, "msg")))
	}
	nTail := rapid.IntRange(0, 2).Draw(t, "after")
	var tail []segment
	for i := 0; i < nTail; i++ {
		tail = append(tail, validFrame(t, gm.Draw(t, "tailmsg")))
	}
	nextLen := 0
	for _, s := range tail {
		nextLen += len(s.data)
	}
	label := "valid-only"
	if rapid.IntRange(0, 9).Draw(t, "mutate?") > 0 {
		var seg segment
		seg, label = mutated(t, gm.Draw(t, "victim"), nextLen)
		segs = append(segs, seg)
	}
	segs = append(segs, tail...)

	c := StreamCase{Label: label, Chunk: rapid.SampledFrom(chunks).Draw(t, "chunk")}
	var data []byte
	for _, s := range segs {
		data = append(data, s.data...)
	}
	cut := len(data)
	if rapid.IntRange(0, 3).Draw(t, "truncate?") == 0 && len(data) > 0 {
		cut = rapid.IntRange(0, len(data)).Draw(t, "cut")
		if cut < len(data) {
			c.Label += "+cut"
		}
	}
	off := 0
	open := true // expectations still line up with reads
	for _, s := range segs {
		if !open {
			break
		}
		end := off + len(s.data)
		switch {
		case end <= cut:
			if s.usesNext && cut < len(data) {
				s.expect.N = -1
			}
			c.Expect = append(c.Expect, s.expect)
			open = s.resync
		case off >= cut:
			open = false
			if off == cut {
				c.Expect = append(c.Expect, Expect{Outcome: "eof", N: 0})
			}
		default: // cut strictly inside this segment
			open = false
			if s.cuttable {
				c.Expect = append(c.Expect, Expect{Outcome: "err", N: int64(cut - off)}, Expect{Outcome: "eof", N: 0})
			}
		}
		off = end
	}
	if open && cut == len(data) {
		c.Expect = append(c.Expect, Expect{Outcome: "eof", N: 0})
	}
	c.Data = vk.Bytes(data[:cut])
	return c
}

func runStream(t failer, c StreamCase, class string) {
	v, in := readStream(c)
	// non-trivial: something other than a plain message precedes a message that must be read back
	nt := false
	sawOther := false
	for _, e := range c.Expect {
		if e.Outcome == "msg" && sawOther {
			nt = true
		}
		if e.Outcome != "msg" {
			sawOther = true
		}
	}
	k := key(c)
	vk.R.Case(nt, k)
	vk.R.Class(class)
	lbl := strings.SplitN(c.Label, ":", 2)[0]
	if strings.HasSuffix(c.Label, "+cut") && !strings.HasSuffix(lbl, "+cut") {
		lbl += "+cut"
	}
	vk.R.Class("stream:" + lbl)
	if in.plainEOFMid {
		vk.R.Class("observed:bare-io.EOF-after-consuming-bytes")
	}
	if nt {
		vk.R.Sample(string(c.Data))
	}
	vk.R.Check(t, "stream", c, v)
}

func TestMalformed(t *testing.T) {
	vk.R.Rapid(t, 3, 30000, 450000, func(t *rapid.T) {
		runStream(t, genStream(t), "src=malformed")
	})
}

var soupFrags = []string{"Content-Length: ", "Content-Length:", "content-length: ", "Content-Type: x", "\r\n", "\r\n", "\r\n\r\n", "\n", "\r", ":", " ", "0", "1", "2", "5", "17", "-1", "+3", "1048576",
	"2147483648", "{", "}", "{}", `{"jsonrpc":"2.0","id":1,"method":"m"}`, `{"jsonrpc":"2.0","id":"a","result":null}`, `{"jsonrpc":"2.0","method":"n","params":[1]}`,
	"Content-Length: 37\r\n\r\n" + `{"jsonrpc":"2.0","id":1,"method":"m"}`, "Content-Length: 2\r\n\r\n{}", "\x00", "\xff", "é", "a", "x: y\r\n"}

// soupOK keeps declared lengths within the design bound (<= 1 MiB): the reader allocates the
// declared length before reading, a 2 GiB buffer per case would only measure the allocator.
// Digit runs of 11+ digits overflow ParseInt(…, 32) and are rejected by the reader without allocating.
func soupOK(b []byte) bool {
	for i := 0; i < len(b); {
		if b[i] < '0' || b[i] > '9' {
			i++
			continue
		}
		j := i
		for j < len(b) && b[j] >= '0' && b[j] <= '9' {
			j++
		}
		if run := string(b[i:j]); j-i >= 7 && j-i <= 10 && run != "1048576" && run != "2147483648" {
			return false
		}
		i = j
	}
	return true
}

// TestSoup: fragment soup and raw bytes; universal rules only (no panic, one of message/error,
// progress, byte counts within the stream).
func TestSoup(t *testing.T) {
	g := rapid.OneOf(
		rapid.Custom(func(t *rapid.T) []byte {
			parts := rapid.SliceOfN(rapid.SampledFrom(soupFrags), 0, 14).Draw(t, "frags")
			return []byte(strings.Join(parts, ""))
		}).Filter(soupOK),
		rapid.SliceOfN(rapid.Byte(), 0, 64),
	)
	vk.R.Rapid(t, 4, 20000, 200000, func(t *rapid.T) {
		c := StreamCase{Label: "soup", Data: g.Draw(t, "data"), Chunk: rapid.SampledFrom(chunks).Draw(t, "chunk")}
		v, in := readStream(c)
		vk.R.Case(false, "")
		vk.R.Class("src=soup")
		if in.msgs > 0 {
			vk.R.Class("soup:yielded-a-message")
		}
		if in.plainEOFMid {
			vk.R.Class("observed:bare-io.EOF-after-consuming-bytes")
		}
		vk.R.Check(t, "stream", c, v)
	})
}

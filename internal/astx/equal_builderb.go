package astx

import (
	"fmt"
	goast "go/ast"
	"reflect"
	"sort"
	"strconv"

	"github.com/goplus/xgo/ast"
	"github.com/goplus/xgo/token"
)

// FormatEqual compares two files the way property C19 states it: equal except for positions,
// comment placement and the order of imports within one declaration. On top of EqualModuloPos
// it
//
//   - ignores every comment field, also when only one side has it (comment placement);
//   - looks through ParenExpr on both sides (gofmt-style printers drop redundant parentheses in
//     control clauses, around already parenthesised expressions, …; parentheses that matter
//     change the shape of the tree below them and are still seen);
//   - drops explicit empty statements from statement lists (`;;`: gofmt-style printers do not
//     print them);
//   - compares the specs of an import declaration as a set of (name, unquoted path) pairs
//     (sorting and removal of exact duplicates is C23's subject; the printer re-quotes raw paths).
//
// It returns "" when equal and a path to the first difference otherwise.
func FormatEqual(a, b *ast.File) string {
	return feq(reflect.ValueOf(a), reflect.ValueOf(b), "", 0)
}

var (
	exprType  = reflect.TypeOf((*ast.Expr)(nil)).Elem()
	cgType    = reflect.TypeOf((*goast.CommentGroup)(nil))
	parenType = reflect.TypeOf((*ast.ParenExpr)(nil))
)

var stmtType = reflect.TypeOf((*ast.Stmt)(nil)).Elem()

func dropEmpty(v reflect.Value) reflect.Value {
	out := reflect.MakeSlice(v.Type(), 0, v.Len())
	for i := 0; i < v.Len(); i++ {
		if !v.Index(i).IsNil() {
			if _, empty := v.Index(i).Interface().(*ast.EmptyStmt); empty {
				continue
			}
		}
		out = reflect.Append(out, v.Index(i))
	}
	return out
}

func unparen(v reflect.Value) reflect.Value {
	for v.IsValid() && v.Kind() == reflect.Interface && !v.IsNil() && v.Elem().Type() == parenType {
		p := v.Elem().Interface().(*ast.ParenExpr)
		if p == nil {
			break
		}
		x := reflect.New(exprType).Elem()
		if p.X != nil {
			x.Set(reflect.ValueOf(p.X))
		}
		v = x
	}
	return v
}

func importSet(d *ast.GenDecl) []string {
	seen := map[string]bool{}
	var out []string
	for _, s := range d.Specs {
		is, ok := s.(*ast.ImportSpec)
		if !ok || is.Path == nil {
			out = append(out, fmt.Sprintf("?%T", s))
			continue
		}
		p, err := strconv.Unquote(is.Path.Value)
		if err != nil {
			p = is.Path.Value
		}
		k := strconv.Quote(p)
		if is.Name != nil {
			k = is.Name.Name + " " + k
		}
		if !seen[k] {
			seen[k] = true
			out = append(out, k)
		}
	}
	sort.Strings(out)
	return out
}

func feq(a, b reflect.Value, at string, depth int) string {
	if depth > 10000 {
		return ""
	}
	if a.IsValid() && a.Kind() == reflect.Interface && a.Type() == exprType {
		a, b = unparen(a), unparen(b)
	}
	if !a.IsValid() || !b.IsValid() {
		if a.IsValid() != b.IsValid() {
			return at + ": one side is nil"
		}
		return ""
	}
	if a.Type() != b.Type() {
		return fmt.Sprintf("%s: %s vs %s", at, a.Type(), b.Type())
	}
	t := a.Type()
	if t == posType || t == objType || t == scopeType || t == goObjType || t == goScpType || t == cgType {
		return ""
	}
	switch a.Kind() {
	case reflect.Interface, reflect.Ptr:
		if a.IsNil() || b.IsNil() {
			if a.IsNil() != b.IsNil() {
				return at + ": nil vs non-nil"
			}
			return ""
		}
		if a.Kind() == reflect.Ptr {
			if d, ok := a.Interface().(*ast.GenDecl); ok && d.Tok == token.IMPORT {
				e := b.Interface().(*ast.GenDecl)
				if e.Tok != token.IMPORT {
					return at + ": import declaration vs " + e.Tok.String()
				}
				x, y := importSet(d), importSet(e)
				if fmt.Sprint(x) != fmt.Sprint(y) {
					return fmt.Sprintf("%s: imports %v vs %v", at, x, y)
				}
				return ""
			}
		}
		if a.Kind() == reflect.Interface {
			if a.Elem().Type() != b.Elem().Type() {
				return fmt.Sprintf("%s: %s vs %s", at, a.Elem().Type(), b.Elem().Type())
			}
			return feq(a.Elem(), b.Elem(), at+"<"+TypeName(a.Elem().Interface())+">", depth+1)
		}
		return feq(a.Elem(), b.Elem(), at, depth+1)
	case reflect.Struct:
		for i := 0; i < a.NumField(); i++ {
			f := t.Field(i)
			if !f.IsExported() || skipField(t.Name(), f.Name) {
				continue
			}
			if t.Name() == "EmptyStmt" && f.Name == "Implicit" {
				continue // `L: ;` and `L:` before a closing brace are the same statement
			}
			if d := feq(a.Field(i), b.Field(i), at+"."+f.Name, depth+1); d != "" {
				return d
			}
		}
		return ""
	case reflect.Slice:
		if t.Elem() == stmtType {
			a, b = dropEmpty(a), dropEmpty(b)
		}
		if a.Len() != b.Len() {
			return fmt.Sprintf("%s: length %d vs %d", at, a.Len(), b.Len())
		}
		for i := 0; i < a.Len(); i++ {
			if d := feq(a.Index(i), b.Index(i), fmt.Sprintf("%s[%d]", at, i), depth+1); d != "" {
				return d
			}
		}
		return ""
	case reflect.Map:
		return ""
	case reflect.String:
		if a.String() != b.String() {
			return fmt.Sprintf("%s: %q vs %q", at, a.String(), b.String())
		}
		return ""
	case reflect.Bool:
		if a.Bool() != b.Bool() {
			return fmt.Sprintf("%s: %v vs %v", at, a.Bool(), b.Bool())
		}
		return ""
	case reflect.Int, reflect.Int8, reflect.Int16, reflect.Int32, reflect.Int64:
		if a.Int() != b.Int() {
			return fmt.Sprintf("%s: %d vs %d", at, a.Int(), b.Int())
		}
		return ""
	case reflect.Uint, reflect.Uint8, reflect.Uint16, reflect.Uint32, reflect.Uint64:
		if a.Uint() != b.Uint() {
			return fmt.Sprintf("%s: %d vs %d", at, a.Uint(), b.Uint())
		}
		return ""
	}
	return ""
}
